"""Contract of the levelisation phase of kyupy.sim.SimOps.__init__ (C07): the statements from ``levels = np.zeros(..)`` to
``self.level_stops = ..`` executed symbolically on a symbolic op table.

Ghost: LV(j) = level number given to op j; PROD(x) = index of the op that outputs slot x (or -1).
requires  op columns in range; stems[x] in {-1} u [0, nlocs); operands are never the scratch slots; single production
          (PROD is well defined, only the tmp slot may be written by several ops); topological order of the op list w.r.t. the
          stem-resolved operands (TopoOps: PROD(operand) < j or -1) -- consequences of topological_order / translation (bounded).
ensures   S1  level_starts[0] = 0, strictly increasing, level_stops[l] = level_starts[l+1], last stop = n
          R   level_starts[l] <= j  <=>  l + 1 <= LV(j)      (the published ranges are exactly the LV classes)
          S2  every operand of op j that is produced by an op lies in a strictly lower level:  LV(PROD(x)) < LV(j)
"""
import ast

import z3

from pyvc.engine import State, Model, NotInSubset, SymIter
from pyvc.values import SInt, SBool, to_int, is_sym, _conc_int
from pyvc.models_obj import SObj, IntArr, Table2
from pyvc.verify import Config, Target

LV = z3.Function('LV', z3.IntSort(), z3.IntSort())
PROD = z3.Function('PROD', z3.IntSort(), z3.IntSort())
OPS = z3.Function('OPS', z3.IntSort(), z3.IntSort(), z3.IntSort())
# CNT(x, k): number of operand references (stem-resolved, 4 columns, with multiplicity) to slot x by the ops [0, k)
CNT = z3.Function('CNT', z3.IntSort(), z3.IntSort(), z3.IntSort())


def cnt_step(res, k):
    x = z3.Int('cx')
    return z3.ForAll([x], CNT(x, k + 1) == CNT(x, k) + z3.Sum([z3.If(res(OPS(k, c)) == x, 1, 0) for c in range(2, 6)]))


class Method(Model):
    def __init__(self, fn):
        self.fn = fn

    def m_call(self, ex, st, args, kwargs, node):
        return self.fn(ex, st, args, kwargs, node)


class IntList(Model):
    """Python list of ints: heap[(name,'arr')], heap[(name,'len')]"""
    counter = 0

    def __init__(self, name):
        self.name = name

    @staticmethod
    def from_values(ex, st, vals):
        IntList.counter += 1
        name = f'list{IntList.counter}'
        arr = z3.K(z3.IntSort(), z3.IntVal(0))
        for i, v in enumerate(vals):
            arr = z3.Store(arr, i, to_int(v))
        st.heap[(name, 'arr')] = arr
        st.heap[(name, 'len')] = SInt(z3.IntVal(len(vals)))
        return IntList(name)

    def arr(self, st): return st.heap[(self.name, 'arr')]
    def length(self, st): return st.heap[(self.name, 'len')]

    def m_len(self, ex, st, node):
        return self.length(st)

    def m_iter(self, ex, st, node):
        arr = self.arr(st)
        return SymIter(self.length(st), lambda ex_, st_, k: SInt(z3.Select(arr, to_int(k))))

    def m_getattr(self, ex, st, name, node):
        if name == 'append':
            def append(ex_, st_, args, kwargs, node_):
                n = to_int(self.length(st_))
                st_.heap[(self.name, 'arr')] = z3.Store(self.arr(st_), n, to_int(args[0]))
                st_.heap[(self.name, 'len')] = self.length(st_) + 1
            return Method(append)
        raise NotInSubset(f'list.{name}')

    def m_getitem(self, ex, st, idx, node):
        if isinstance(idx, slice):
            if idx.step is not None or idx.stop is not None or _conc_int(idx.start) is None or idx.start < 0:
                raise NotInSubset('list slice')
            k = idx.start
            IntList.counter += 1
            new = IntList(f'list{IntList.counter}')
            j = z3.Int('j!sl')
            a = self.arr(st)
            n = to_int(self.length(st))
            st.heap[(new.name, 'arr')] = z3.Lambda([j], z3.Select(a, j + k))
            st.heap[(new.name, 'len')] = SInt(z3.If(n >= k, n - k, 0))
            return new
        i = to_int(idx)
        ex.prove(st, 'no-exception:IndexError list read', z3.And(i >= 0, i < to_int(self.length(st))), node)
        return SInt(z3.Select(self.arr(st), i))

    def m_binop(self, ex, st, op, a, b, node):
        if op is ast.Add and a is self and isinstance(b, list):
            IntList.counter += 1
            new = IntList(f'list{IntList.counter}')
            arr, n = self.arr(st), to_int(self.length(st))
            for i, v in enumerate(b):
                arr = z3.Store(arr, n + i, to_int(v))
            st.heap[(new.name, 'arr')] = arr
            st.heap[(new.name, 'len')] = self.length(st) + len(b)
            return new
        raise NotInSubset('list operator')


def assign_hook(ex, st, name, v, node):
    if name == 'level_starts' and isinstance(v, list):
        return IntList.from_values(ex, st, v)
    return v


def prims(globs):
    np = globs['np']

    def zeros(ex, st, args, kwargs, node):
        if kwargs.get('dtype') not in ('int32', np.int32):
            raise NotInSubset('np.zeros dtype')
        nm = f'zeros{next(ex.fresh)}'
        st.heap[nm] = z3.K(z3.IntSort(), z3.IntVal(0))
        return IntArr(nm, length=args[0], writable=True)

    def asarray(ex, st, args, kwargs, node):
        if not isinstance(args[0], IntList):
            raise NotInSubset('np.asarray of a non-list')
        return args[0]
    return {np.zeros: zeros, np.asarray: asarray}


def phase(stmts):
    """from the assignment of ``levels`` to the assignment of ``self.level_stops``"""
    a = b_ = None
    for i, s in enumerate(stmts):
        if isinstance(s, ast.Assign) and len(s.targets) == 1:
            t = s.targets[0]
            if isinstance(t, ast.Name) and t.id == 'levels' and a is None:
                a = i
            if isinstance(t, ast.Attribute) and t.attr == 'level_stops':
                b_ = i + 1
    if a is None or b_ is None or b_ <= a:
        from pyvc.engine import ContractError
        raise ContractError('levelisation phase not found in SimOps.__init__')
    return a, b_


def levelise_config():
    def setup(ex):
        st = State()
        n, nlocs, nlines = ex.fv('n_ops', 'int'), ex.fv('c_locs_len', 'int'), ex.fv('n_lines', 'int')
        st.assume(SBool(z3.And(n.e >= 0, nlocs.e > 0, nlines.e >= 0, nlines.e + 3 <= nlocs.e)))
        ops = Table2(OPS, n, 9)
        stems = IntArr.new(ex, st, 'stems', length=nlocs)
        S = st.heap['stems']
        tmp, tmp2 = nlines.e + 1, nlines.e + 2
        res = lambda x: z3.If(S[x] >= 0, S[x], x)
        ex.g = dict(OPS=OPS, n=n.e, nlocs=nlocs.e, res=res, tmp=tmp)
        j, x = z3.Int('j'), z3.Int('x')
        inr = z3.And(0 <= j, j < n.e)
        req = []
        for c in range(1, 6):
            req.append(z3.ForAll([j], z3.Implies(inr, z3.And(OPS(j, c) >= 0, OPS(j, c) < nlocs.e))))
        req.append(z3.ForAll([x], z3.Implies(z3.And(0 <= x, x < nlocs.e), z3.And(S[x] >= -1, S[x] < nlocs.e))))
        for c in range(2, 6):
            # operands (stem-resolved) are never the scratch slots; TopoOps
            req.append(z3.ForAll([j], z3.Implies(inr, z3.And(res(OPS(j, c)) != tmp, PROD(res(OPS(j, c))) < j, PROD(res(OPS(j, c))) >= -1))))
        # single production: PROD(out_j) = j unless the output is the tmp slot
        req.append(z3.ForAll([j], z3.Implies(z3.And(inr, OPS(j, 1) != tmp), PROD(OPS(j, 1)) == j)))
        req.append(z3.ForAll([x], z3.Or(PROD(x) == -1, z3.And(PROD(x) >= 0, PROD(x) < n.e, OPS(PROD(x), 1) == x, x != tmp))))
        req.append(z3.ForAll([x], CNT(x, 0) == 0))
        for r in req:
            st.assume(SBool(r))
        selfo = SObj.new(st, 'self', ops=ops, c_locs_len=nlocs)
        st.env.update(self=selfo, stems=stems, np=ex.globs['np'])
        return st

    def operands(ex, k):
        g = ex.g
        return [g['res'](g['OPS'](k, c)) for c in range(2, 6)]

    def loop_assume(ex, st):
        g = ex.g
        k = to_int(st.env['__k0'])
        lev = st.heap[st.env['levels'].name]
        cl = to_int(st.env['current_level'])
        bump = z3.Or(*[z3.Select(lev, x) >= cl for x in operands(ex, k)])
        st.assume(SBool(LV(k) == z3.If(bump, cl + 1, cl)))
        st.assume(SBool(cnt_step(g['res'], k)))

    def inv(ex, st):
        g = ex.g
        e = st.env
        k = to_int(e['__k0'])
        cl = to_int(e['current_level'])
        ls = e['level_starts']
        if not isinstance(ls, IntList) or not isinstance(e.get('levels'), IntArr):
            yield 'level_starts is a list and levels an array', False
            return
        L, ln = ls.arr(st), to_int(ls.length(st))
        lev = st.heap[e['levels'].name]
        j, j2, l, x = z3.Ints('j j2 l x')
        yield 'I1:current_level = number of levels so far, first level starts at 0', SBool(z3.And(cl >= 1, ln == cl, z3.Select(L, 0) == 0))
        yield 'I2:levels of processed ops are in [1, current_level] and non-decreasing', \
            SBool(z3.And(z3.ForAll([j], z3.Implies(z3.And(0 <= j, j < k), z3.And(LV(j) >= 1, LV(j) <= cl))),
                         z3.ForAll([j, j2], z3.Implies(z3.And(0 <= j, j <= j2, j2 < k), LV(j) <= LV(j2))),
                         z3.Implies(k > 0, LV(k - 1) == cl)))
        yield 'I3:level_starts[l] <= j  <=>  l+1 <= LV(j)', \
            SBool(z3.ForAll([j, l], z3.Implies(z3.And(0 <= j, j < k, 0 <= l, l < ln), (z3.Select(L, l) <= j) == (l + 1 <= LV(j)))))
        yield 'I3b:level starts lie inside the processed prefix and increase strictly', \
            SBool(z3.And(z3.ForAll([l], z3.Implies(z3.And(1 <= l, l < ln), z3.And(z3.Select(L, l) > z3.Select(L, l - 1), z3.Select(L, l) < k))),
                         z3.Implies(k == 0, ln == 1)))
        yield 'I4:levels[x] is the level of the producer of x among the processed ops, else 0', \
            SBool(z3.ForAll([x], z3.Implies(x != g['tmp'], z3.Select(lev, x) == z3.If(z3.And(PROD(x) >= 0, PROD(x) < k), LV(PROD(x)), 0))))
        yield 'I4b:the tmp slot never exceeds the current level', SBool(z3.Select(lev, g['tmp']) <= cl)
        if not isinstance(e.get('ref_count'), IntArr):
            yield 'ref_count is an array', False
            return
        yield 'I6:ref_count[x] = number of operand references to x by the ops passed so far', \
            SBool(z3.ForAll([x], z3.Select(st.heap[e['ref_count'].name], x) == CNT(x, k)))
        for c in range(2, 6):
            xo = g['res'](g['OPS'](j, c))
            yield f'I5:operand {c - 2} produced by an op lies in a strictly lower level', \
                SBool(z3.ForAll([j], z3.Implies(z3.And(0 <= j, j < k, PROD(xo) >= 0), LV(PROD(xo)) < LV(j))))

    def post(ex, st):
        g = ex.g
        n = g['n']
        selfo = st.env['self']
        try:
            ls, lst = st.heap[('self', 'level_starts')], st.heap[('self', 'level_stops')]
        except KeyError:
            yield 'self.level_starts and self.level_stops are assigned', False
            return
        if not isinstance(ls, IntList) or not isinstance(lst, IntList):
            yield 'level_starts / level_stops are integer sequences', False
            return
        L, ln = ls.arr(st), to_int(ls.length(st))
        T, tn = lst.arr(st), to_int(lst.length(st))
        j, l = z3.Ints('j l')
        yield 'S1:first level starts at 0 and level starts increase strictly', \
            SBool(z3.And(ln >= 1, z3.Select(L, 0) == 0, z3.ForAll([l], z3.Implies(z3.And(1 <= l, l < ln), z3.Select(L, l) > z3.Select(L, l - 1)))))
        yield 'S1:level_stops[l] = level_starts[l+1], last stop = number of ops, same length', \
            SBool(z3.And(tn == ln, z3.Select(T, ln - 1) == n, z3.ForAll([l], z3.Implies(z3.And(0 <= l, l < ln - 1), z3.Select(T, l) == z3.Select(L, l + 1)))))
        yield 'S1:every level start is an op index (or 0 for the empty list)', SBool(z3.ForAll([l], z3.Implies(z3.And(1 <= l, l < ln), z3.Select(L, l) < n)))
        yield 'R:the published ranges are exactly the level classes', \
            SBool(z3.ForAll([j, l], z3.Implies(z3.And(0 <= j, j < n, 0 <= l, l < ln), (z3.Select(L, l) <= j) == (l + 1 <= LV(j)))))
        for c in range(2, 6):
            xo = g['res'](g['OPS'](j, c))
            yield f'S2:operand {c - 2} of every op is a source or produced in a strictly earlier level', \
                SBool(z3.ForAll([j], z3.Implies(z3.And(0 <= j, j < n, PROD(xo) >= 0), LV(PROD(xo)) < LV(j))))
        x = z3.Int('x')
        rc = st.env.get('ref_count')
        if not isinstance(rc, IntArr):
            yield 'ref_count is an array', False
            return
        yield 'RC:ref_count[x] = number of operand references (stem-resolved, with multiplicity) to x over all ops', \
            SBool(z3.ForAll([x], z3.Select(st.heap[rc.name], x) == CNT(x, n)))
        ex.prove(st, 'mustfail:there is never more than one level', SBool(ln == 1), ex.fn, expect='refuted')

    contract = {'post': post, 'assign_hook': assign_hook, 'merge_ifs': True, 'loop_match': {0: ('enumerate(self.ops)', 0)},
                'loops': {0: {'inv': inv, 'assume': loop_assume, 'kinds': {}}}}
    return Config('any op table (TopoOps, single production)', contract, setup, None)


def targets():
    return [Target('sim', 'SimOps.__init__', [levelise_config()], prims=prims, instantiate='fallback', body_slice=phase, label='levelisation phase',
                   note='statements from `levels = ...` to `self.level_stops = ...`')]


# ------------------------------------------------------------------------------------------------------------ slot layout (prelude)
class LenOnly(Model):
    def __init__(self, n):
        self.n = n

    def m_len(self, ex, st, node):
        return self.n


def layout_phase(stmts):
    """from the assignment of ``self.zero_idx`` to the assignment of ``self.c_locs_len``"""
    a = b_ = None
    for i, s in enumerate(stmts):
        if isinstance(s, ast.Assign) and len(s.targets) == 1 and isinstance(s.targets[0], ast.Attribute):
            if s.targets[0].attr == 'zero_idx' and a is None:
                a = i
            if s.targets[0].attr == 'c_locs_len':
                b_ = i + 1
    if a is None or b_ is None or b_ <= a:
        from pyvc.engine import ContractError
        raise ContractError('slot layout block not found in SimOps.__init__')
    return a, b_


def layout_config():
    """special slots follow the lines, then one interface-input and one interface-output slot per interface node (the layout every other contract relies on)"""
    def setup(ex):
        st = State()
        nl, sl = ex.fv('n_lines', 'int'), ex.fv('s_len', 'int')
        st.assume(SBool(z3.And(nl.e >= 0, sl.e >= 0)))
        st.env['self'] = SObj.new(st, 'self', s_len=sl)
        st.env['circuit'] = SObj.new(st, 'circuit', lines=LenOnly(nl))
        ex.g = dict(nl=nl.e, sl=sl.e)
        return st

    def post(ex, st):
        g = ex.g
        try:
            f = {k: to_int(st.heap[('self', k)]) for k in ('zero_idx', 'tmp_idx', 'tmp2_idx', 'ppi_offset', 'ppo_offset', 'c_locs_len')}
        except KeyError:
            yield 'zero_idx, tmp_idx, tmp2_idx, ppi_offset, ppo_offset, c_locs_len are assigned', False
            return
        nl, sl = g['nl'], g['sl']
        yield 'zero, tmp, tmp2 follow the lines; interface-input slots follow them; interface-output slots follow those; c_locs_len is the total', \
            SBool(z3.And(f['zero_idx'] == nl, f['tmp_idx'] == nl + 1, f['tmp2_idx'] == nl + 2, f['ppi_offset'] == nl + 3, f['ppo_offset'] == nl + 3 + sl, f['c_locs_len'] == nl + 3 + 2 * sl))
        ex.prove(st, 'mustfail:all special indices are 0', SBool(f['c_locs_len'] == 0), ex.fn, expect='refuted')
    return Config('any circuit size', {'post': post}, setup, None)


def targets_layout():
    return [Target('sim', 'SimOps.__init__', [layout_config()], body_slice=layout_phase, label='slot layout',
                   note='statements from `self.zero_idx = ...` to `self.c_locs_len = ...`')]
