#!/bin/bash
# Builds the overlay venv /verif/.venv (CPython 3.12 of /venv + z3/cvc5/crosshair/deal/icontract/jsonschema from the
# offline wheelhouse; the repo's own runtime deps (numpy, lark-parser, kyupy->/repo) come from /venv via a .pth).
set -e
cd "$(dirname "$0")"
V=.venv
if [ -x $V/bin/python ] && $V/bin/python -c "import z3, jsonschema, numpy, lark, kyupy" 2>/dev/null; then
  exit 0
fi
rm -rf $V
/venv/bin/python -m venv $V
PIP_NO_INDEX=1 $V/bin/python -m pip install -q --no-index --find-links /opt/veriftools/wheels z3-solver cvc5 crosshair-tool deal icontract jsonschema hypothesis >/dev/null
echo "import site; site.addsitedir('/venv/lib/python3.12/site-packages')" > $V/lib/python3.12/site-packages/_repo_deps.pth
$V/bin/python -c "import z3, jsonschema, numpy, lark, kyupy; print('venv ok', z3.get_version_string(), numpy.__version__, kyupy.__file__)"
