#!/usr/bin/env python3
"""Regenerates MANIFEST.json from the per-property registry below (kept in one place so it stays valid)."""
import json, os
ROOT = os.path.dirname(os.path.abspath(__file__))
BASELINE = "cd /repo && /venv/bin/python -m pytest -ra -q -p no:cacheprovider --timeout=900 --continue-on-collection-errors"

CHECKS = {}
NA = {}

def check(pid, category, text, note, technique, design_ref):
    CHECKS[pid] = dict(property_id=pid, quick_cmd=f'./check {pid} --tier quick', thorough_cmd=f'./check {pid} --tier thorough',
                       evidence_file=f'evidence/{pid}.json', replay_cmd_template=f'./check {pid} --replay {{path}}',
                       engine='pyvc', level_claimed=dict(category=category, text=text, design_ref=design_ref),
                       level_note=note, technique=technique)

exec(open(os.path.join(ROOT, 'manifest_entries.py')).read())

props = [json.loads(l)['id'] for l in open(os.path.join(ROOT, 'properties.jsonl'))]
for p in props:
    if p not in CHECKS and p not in NA:
        NA[p] = 'not yet built in this framework (work in progress); no check is claimed'
m = dict(version=1, setup_cmd='./setup.sh',
         hooks=dict(guard='KYUPY_VERIF', enable='none needed: contracts are sidecars under /verif, /repo is never edited for verification (KYUPY_VERIF is unused)',
                    baseline_off_cmd=BASELINE, source_commits=[], add_only=True),
         engines=[dict(name='pyvc', path='pyvc/', serves_properties=sorted(CHECKS),
                       kind_free_text='ast->z3 verification-condition generator (forward symbolic execution with loop invariants and modular calls) over the real source text of /repo, sidecar contracts in contracts/, z3/cvc5 discharge in a 16-process pool; bounded runtime-contract stand-ins in bounded/')],
         checks=[CHECKS[p] for p in props if p in CHECKS],
         not_applicable=[dict(property_id=p, reason=NA[p]) for p in props if p in NA],
         notes='See DESIGN.md. Exit codes: 0 held / 1 VIOLATION / 2 undecided (obligation outside the committed baseline undecided, target outside the modelled subset, contract does not bind) / 3 checker defect. An obligation of baseline_obligations.json that can no longer be discharged (re-tried alone with a long budget) is reported as VIOLATION ... no-failing-input-found.')
json.dump(m, open(os.path.join(ROOT, 'MANIFEST.json'), 'w'), indent=1)
print('checks:', sorted(CHECKS), 'not_applicable:', sorted(NA))
